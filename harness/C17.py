"""C17 - the optimality-criteria update keeps bounds and move limit (partially decidable).

Executed for real: minimize_oc completely (sensitivity collection through obtain_sensitivities / _concatenate_to_array,
positive-gradient clipping and its warning, the bisection loop on the Lagrange multiplier, the clipped update, both
convergence tests, the write-back) for ONE outer iteration (maxit = 1) from an arbitrary admissible design, on a network
made of a user module f = sum_i c_i / x_i written here with the public Module API.  Because the start design is arbitrary
this is the inductive step for "every design produced": nothing is carried from one outer iteration to the next except the
previous objective value, which only feeds the stopping test.
"""
import warnings
import numpy as np

from symx import R, SB
from symx import ctx as _ctx
from symx.scalars import ite
from symx.array import SymArray
from .common import symbolic_run, Vals
from .refs_clauses import Clauses

PROPERTY = "C17"
LAYOUTS = {"m22-a1": [(2, 2), 1], "a2": [2], "a1-a1": [1, 1], "a2-a1": [2, 1], "s-a2": [0, 2], "a3": [3], "a2-a2": [2, 2], "a1-a3": [1, 3]}
BOUNDS = {
    "quick": dict(layouts=["a2", "a1-a1", "a2-a1", "s-a2"], bisection_steps=2, outer_iterations="1 (2 in the idlefirst items)",
                  bounds=["scalar", "per-variable array"], maxvol=["symbolic", "None (= initial volume)"],
                  move=["scalar", "per-variable array (one item)"], tolx=["0", "symbolic (a2, a1-a1: break branch)"],
                  positive_gradient_item="a2-a1 with c_0 < 0"),
    "thorough": dict(layouts=["a2", "a1-a1", "a2-a1", "s-a2", "a3", "a2-a2", "a1-a3"], bisection_steps=[2, 3],
                     outer_iterations=1, bounds=["scalar", "per-variable array"], maxvol=["symbolic", "None"],
                     move=["scalar", "per-variable array"], tolx=["0", "symbolic"], positive_gradient_item="a2-a1, a3"),
}
OUTSIDE = [
    "'total volume equals the prescribed maximum to bisection tolerance': needs the complete ~30-step data-dependent "
    "bisection (2^30 paths); here the bisection is bounded to 2 (thorough 3) steps through the public arguments "
    "l1init / l2init / l1l2tol, and only the clauses that do not depend on the number of steps are claimed: NOT decided by "
    "the solver; four `oc-volume-concrete-*` regression items run the real routine on fixed data (default bracket, "
    "tolerances 1e-4 .. 1e-9) and compare the volume with a bound derived from the definition (evidence kind "
    "`concrete-regression`, not a solver verdict)",
    "convergence of the iteration to the analytic optimum of sum c_i / x_i: NOT decided (only the stopping rule of one "
    "iteration: the update is discarded exactly when |x_new - x| / |x| of the whole design is below tolx)",
    "more than one outer iteration in one symbolic run, except the 'idlefirst' items (two iterations, the first with an "
    "objective that does not depend on the design, so that volume is lost and the bracket/target carried into the second "
    "iteration is observable); two ordinary chained iterations do not finish",
    "more variable signals / variables than the bound; designs with xmin <= 0 (the update multiplies by sqrt(-g/lambda))",
    "verbosity >= 1 printing; IEEE rounding",
]
ASSUMPTIONS = [
    "float64 arithmetic modelled as exact real arithmetic; sqrt is an uninterpreted function with the ground axioms "
    "SQRT(t) >= 0, SQRT(t)^2 = t",
    "admissible start design: 0 < xmin < xmax, xmin <= x <= xmax, move > 0; coefficients c_i > 0 (negative gradients) except "
    "in the positive-gradient items",
    "l1init = 0, l2init = 4 (8 for three steps), l1l2tol = 1: exact dyadic bracket values",
    "the builtin max() inside pymoto.routines is evaluated as an If-term (no fork per ordering)",
]
ITEM_TIMEOUT = {"quick": 240, "thorough": 900}


def VIEWS_LAYOUT_ITEMS(it, tier):
    return it["kind"] == "oc"


def items(tier):
    b = BOUNDS[tier]
    out = []

    def add(lay, steps=2, bnd="scalar", maxvol="sym", move="scalar", tolx="0", pos=False, alias=False, idle_first=False, iters=1, dirty=False):
        ident = "oc-%s-b%d-%s-vol%s-mv%s-tolx%s%s%s%s" % (lay, steps, "bvec" if bnd == "vector" else "bsc", maxvol,
                                                           "v" if move == "vector" else "s", tolx, "-posgrad" if pos else "",
                                                           "-sharedinit" if alias else "",
                                                           "-idlefirst" if idle_first else ("-it%d" % iters if iters > 1 else "")) + ("-usednetwork" if dirty else "")
        out.append(dict(kind="oc", id=ident, layout=lay, steps=steps, bounds=bnd, maxvol=maxvol, move=move, tolx=tolx, pos=pos,
                        alias=alias, idle_first=idle_first, iters=(2 if idle_first else iters), dirty=dirty,
                        **(dict(timeout=400 if tier == "quick" else 1500) if (pos or idle_first or iters > 1) else {})))
    for lay in b["layouts"]:
        add(lay, bnd="scalar", maxvol="sym")
        add(lay, bnd="vector", maxvol="sym")
        add(lay, bnd="scalar", maxvol="none")
    add("a2", tolx="sym")
    add("a1-a1", tolx="sym", bnd="vector")
    add("a2-a1", move="vector", bnd="vector")
    add("a2-a1", pos=True)
    add("a2-a2", alias=True)       # both variable signals initialised from one user array
    add("m22-a1")                  # a 2-D variable array (offsets count entries, not rows)
    # the network was used before (a response and a back-propagation for another purpose, no reset): sensitivities are left on
    # the variable signals and on the objective when minimize_oc starts
    add("a2", maxvol="sym", dirty=True)
    add("a1-a1", maxvol="none", bnd="vector", dirty=True)
    # two outer iterations, the first with an objective that does not depend on the design (every variable goes to its
    # lower limit, volume is lost): the second update must still aim at the volume prescribed at the start
    add("a2", maxvol="none", idle_first=True)
    add("a1-a1", maxvol="sym", idle_first=True)
    # (two ordinary outer iterations in one run - add("a2", maxvol="none", iters=2) - do not finish in 400 s)
    # concrete regression items: volume to bisection tolerance (default tolerance; a user who lowered the tolerance
    # because the gradients, hence the multiplier, are small)
    for n, tol, lam in [(4, "1e-4", "0.8"), (6, "1e-9", "2e-3"), (5, "1e-7", "0.05"), (8, "1e-4", "40")]:
        out.append(dict(kind="oc_volume_concrete", id="oc-volume-concrete-n%d-tol%s-lam%s" % (n, tol, lam), n=n, l1l2tol=tol, lam=lam))
    if tier == "thorough":
        add("a3", pos=True, bnd="vector")
        add("a2", steps=3)
        add("a1-a1", steps=3, bnd="vector")
        add("a2-a1", steps=3)
        add("a2-a1", tolx="sym")
        add("a3", move="vector")
        add("a2-a2", bnd="vector", maxvol="none")
    return out


# ------------------------------------------------------------------------------------------------
_MODS = {}


def _user_module():
    import pymoto as pym
    if "inv" in _MODS:
        return _MODS["inv"]

    def flat(v):
        return list(v.reshape(-1)) if isinstance(v, np.ndarray) else [v]

    class C17Inverse(pym.Module):
        """f = sum_k sum_i coef[k][i] / x_k[i]  with its hand-written adjoint."""

        def _prepare(self, coef=None, idle_calls=0, offset=0):
            self.coef_full, self.idle_calls, self.offset, self.ncalls = coef, idle_calls, offset, 0
            self.coef = coef

        def _response(self, *xs):
            self.xs = xs
            # staged objective: during the first `idle_calls` evaluations the design does not enter (all gradients zero)
            self.coef = [0 * ck for ck in self.coef_full] if self.ncalls < self.idle_calls else self.coef_full
            self.ncalls += 1
            tot = self.offset
            for ck, xk in zip(self.coef, xs):
                for cc, xx in zip(flat(ck), flat(xk)):
                    tot = tot + cc / xx
            return tot

        def _sensitivity(self, df):
            return [-ck / (xk * xk) * df for ck, xk in zip(self.coef, self.xs)]

    _MODS["inv"] = C17Inverse
    return C17Inverse


def _if_max(*args):
    """builtin max for pymoto.routines during the symbolic run: If-terms instead of one fork per comparison."""
    from symx.npshim import _max2
    vals = list(args[0]) if len(args) == 1 else list(args)
    r = vals[0]
    for v in vals[1:]:
        r = _max2(r, v)
    return r


def _sel(cond, a, b):
    if isinstance(cond, SB):
        return [ite(cond, x, y) for x, y in zip(a, b)]
    return a if cond else b


def _mx(a, b):
    from symx.npshim import _max2
    return _max2(a, b) if isinstance(a, R) or isinstance(b, R) else max(a, b)


def _mn(a, b):
    from symx.npshim import _min2
    return _min2(a, b) if isinstance(a, R) or isinstance(b, R) else min(a, b)


def _sqrt(v):
    from symx import npshim
    return npshim.sqrt(v) if isinstance(v, R) else float(np.sqrt(v))


def _oc_reference(x, grad, xmin, xmax, move, maxvol, l1, l2, tol):
    """The OC update from its definition: x_j * sqrt(-g_j / lambda) clipped to [max(xmin, x - move), min(xmax, x + move)],
    lambda found by bisection on the volume; branch-free (nested selections), so it can be compared on every path."""
    n = len(x)
    g = [_mn(gj, 0) for gj in grad]

    def update(lam):
        out = []
        for j in range(n):
            lo, hi = _mx(xmin[j], x[j] - move[j]), _mn(xmax[j], x[j] + move[j])
            out.append(_mn(_mx(x[j] * _sqrt(-g[j] / lam), lo), hi))
        return out

    def rec(l1, l2, cur):
        if not (l2 - l1 > tol):
            return cur
        lmid = (l1 + l2) / 2
        xn = update(lmid)
        tot = xn[0]
        for v in xn[1:]:
            tot = tot + v
        cond = tot - maxvol > 0
        if isinstance(cond, (bool, np.bool_)):
            return rec(lmid, l2, xn) if cond else rec(l1, lmid, xn)
        return _sel(cond, rec(lmid, l2, xn), rec(l1, lmid, xn))
    return rec(l1, l2, None)


def sc_oc(V, P, cfg):
    import pymoto as pym
    from pymoto import routines as rt
    Mod = _user_module()
    sizes = LAYOUTS[cfg["layout"]]
    lens = [int(np.prod(k)) if isinstance(k, tuple) else max(1, k) for k in sizes]
    n = sum(lens)
    cum = [0]
    for ln in lens:
        cum.append(cum[-1] + ln)
    if cfg["bounds"] == "vector":
        xmin = V.reals("xmin", n, positive=True, default=0.25)
        w = V.reals("w", n, positive=True, default=1.0)
        xmax = xmin + w
        xmin_l, xmax_l = list(xmin), list(xmax)
        xmin_in, xmax_in = xmin.copy(), xmax.copy()
    else:
        xmin_s = V.real("xmin", positive=True, default=0.25)
        xmax_s = xmin_s + V.real("w", positive=True, default=1.0)
        xmin_l, xmax_l = [xmin_s] * n, [xmax_s] * n
        xmin_in, xmax_in = xmin_s, xmax_s
    if cfg["move"] == "vector":
        mv = V.reals("move", n, positive=True, default=0.25)
        move_l, move_in = list(mv), mv.copy()
    else:
        mv = V.real("move", positive=True, default=0.25)
        move_l, move_in = [mv] * n, mv
    x0, coef = [], []
    for k, sz in enumerate(sizes):
        if cfg.get("alias") and k > 0:
            x0.append(x0[0])          # every variable signal starts from the same user array
        else:
            x0.append(V.real("x%d" % k, default=0.5) if sz == 0 else V.reals("x%d" % k, sz, default=0.5))
        if cfg["pos"] and k == 0:
            # first coefficient negative: positive gradient entry (clipping branch + warning)
            cneg = V.real("cneg", positive=True, default=1.0)
            rest = [V.real("c0_%d" % i, positive=True, default=1.0) for i in range(1, lens[0])]
            ck = [-cneg] + rest
            if sz == 0:
                coef.append(ck[0])
            else:
                a = np.empty(sz, dtype=object if V.symbolic else float)
                a[:] = ck
                coef.append(a.view(SymArray) if V.symbolic else a)
        else:
            coef.append(V.real("c%d" % k, positive=True, default=1.0) if sz == 0 else V.reals("c%d" % k, sz, positive=True, default=1.0))
    xflat, cflat = [], []
    for xv, cv in zip(x0, coef):
        xflat += list(np.asarray(xv, dtype=object if V.symbolic else float).reshape(-1)) if isinstance(xv, np.ndarray) else [xv]
        cflat += list(np.asarray(cv, dtype=object if V.symbolic else float).reshape(-1)) if isinstance(cv, np.ndarray) else [cv]
    if V.symbolic:
        for j in range(n):
            V.assume(xmin_l[j] <= xflat[j])
            V.assume(xflat[j] <= xmax_l[j])
    maxvol = V.real("maxvol", default=1.0) if cfg["maxvol"] == "sym" else None
    tolx = V.real("tolx", positive=True, default=0.001) if cfg["tolx"] == "sym" else 0.0
    steps = cfg["steps"]
    l1init, l2init, l1l2tol = 0, 2 ** steps, 1
    if cfg.get("alias"):
        shared = x0[0].copy()
        sx = [pym.Signal("x%d" % k, shared) for k in range(len(x0))]      # Signal('a', x_init), Signal('b', x_init)
    else:
        sx = [pym.Signal("x%d" % k, (v.copy() if isinstance(v, np.ndarray) else v)) for k, v in enumerate(x0)]
    sf = pym.Signal("f")
    init_objs = [s_.state for s_ in sx]
    idle = bool(cfg.get("idle_first"))
    iters = cfg.get("iters", 1)
    net = pym.Network(Mod(sx, sf, coef=coef, idle_calls=1, offset=1) if idle else Mod(sx, sf, coef=coef))
    if cfg.get("dirty"):
        net.response()
        for k, s_ in enumerate(sx):
            st_ = s_.state
            s_.sensitivity = (V.reals("left%d" % k, np.shape(st_)) if isinstance(st_, np.ndarray) else V.real("left%d" % k))
        sf.sensitivity = V.real("leftf", default=0.5)
    saved = {}
    if V.symbolic:
        _ctx.current().stubs.add("builtin max inside pymoto.routines -> If-terms")
        saved["max"] = rt.__dict__.get("max", None)
        rt.__dict__["max"] = _if_max
    try:
        with warnings.catch_warnings(record=True) as wlist:
            warnings.simplefilter("always")
            rt.minimize_oc(net, sx, sf, tolx=tolx, tolf=(0.0 if iters > 1 else 1e-4), maxit=iters, xmin=xmin_in, xmax=xmax_in, move=move_in,
                           l1init=l1init, l2init=l2init, l1l2tol=l1l2tol, maxvol=maxvol, verbosity=0)
    finally:
        if V.symbolic:
            if saved["max"] is None:
                rt.__dict__.pop("max", None)
            else:
                rt.__dict__["max"] = saved["max"]
    nwarn = len([w_ for w_ in wlist if "OC only works for negative sensitivities" in str(w_.message)])
    final = [s.state for s in sx]
    obs = dict(f=sf.state, nwarn=nwarn)
    for k, v in enumerate(final):
        obs["x%d_final" % k] = v
    # ---- clauses
    cl = Clauses()
    grad = [-cflat[j] / (xflat[j] * xflat[j]) for j in range(n)]
    vol = maxvol
    if vol is None:
        vol = xflat[0]
        for v in xflat[1:]:
            vol = vol + v
    xstart = xflat
    if idle:
        # first update: zero gradients, x * sqrt(0 / lambda) = 0 clipped to the lower limit for every multiplier
        # (written as the same update from the zero gradients, so that both sides are built from the same terms)
        grad0 = [-(0 * cflat[j]) / (xstart[j] * xstart[j]) for j in range(n)]
        xflat = _oc_reference(xstart, grad0, xmin_l, xmax_l, move_l, vol, l1init, l2init, l1l2tol)
        grad = [-cflat[j] / (xflat[j] * xflat[j]) for j in range(n)]
    elif iters > 1:
        for _ in range(iters - 1):
            xflat = _oc_reference(xflat, grad, xmin_l, xmax_l, move_l, vol, l1init, l2init, l1l2tol)
            grad = [-cflat[j] / (xflat[j] * xflat[j]) for j in range(n)]
    want = _oc_reference(xflat, grad, xmin_l, xmax_l, move_l, vol, l1init, l2init, l1l2tol)
    fl = []
    shapes_ok = True
    for k, sz in enumerate(sizes):
        got = final[k]
        ok = np.size(got) == lens[k]
        cl.true("x%d:size" % k, ok, "write-back")
        shapes_ok = shapes_ok and ok
        fl += list(np.asarray(got, dtype=object if V.symbolic else float).reshape(-1)) if ok else [None] * lens[k]
    # did this run leave through the step-size test (design not written back) ?  minimize_oc assigns new array objects to the
    # variable signals when it writes a design back, so the state objects themselves tell (in both modes; comparing values
    # would call an update that happens to reproduce the start design "not written")
    written = not all(s_.state is o_ for s_, o_ in zip(sx, init_objs))
    obs["written"] = int(written)
    for j in range(n):
        if fl[j] is None:
            continue
        cl.le("xmin<=xnew[%d]" % j, xmin_l[j], fl[j], "bounds")
        cl.le("xnew<=xmax[%d]" % j, fl[j], xmax_l[j], "bounds")
        cl.le("xnew-xold<=move[%d]" % j, fl[j] - xflat[j], move_l[j], "move-limit")
        cl.le("xold-xnew<=move[%d]" % j, xflat[j] - fl[j], move_l[j], "move-limit")
        if written:
            cl.eq("state==OC-update[%d]" % j, fl[j], want[j], "write-back")
        else:
            cl.eq("state-unchanged-on-break[%d]" % j, fl[j], xflat[j], "write-back")
    if cfg["tolx"] == "sym" and all(v is not None for v in fl) and iters == 1:
        # documented stopping rule ("tolx: stopping criterium for relative design change"): the run stops without writing
        # the update exactly when the relative change of the WHOLE design, |x_new - x| / |x|, is below tolx
        num, den = 0, 0
        for j in range(n):
            num = num + (want[j] - xflat[j]) * (want[j] - xflat[j])
            den = den + xflat[j] * xflat[j]
        if written:
            cl.le("update-written => |dx|/|x| >= tolx", tolx * tolx * den, num, "stopping-rule")
        else:
            cl.le("stopped => |dx|/|x| <= tolx", num, tolx * tolx * den, "stopping-rule")
    if cfg["pos"]:
        # (the warning itself depends on max(dfdx) > 1e-15, not on the sign alone: it is observed, not required)
        cl.true("at-most-one-warning", nwarn <= 1, "clipping")
        if fl[0] is not None and written:
            cl.eq("clipped-entry-goes-to-lower-limit", fl[0], _mx(xmin_l[0], xflat[0] - move_l[0]), "clipping")
    else:
        cl.true("no-warning-for-negative-gradients", nwarn == 0, "clipping")
    if P is None:
        obs["_clauses"] = cl
        return obs
    cl.discharge(P, weak_first_kinds=("bounds", "move-limit"))
    return obs


def sc_oc_volume_concrete(V, P, cfg):
    """Concrete regression items (NOT a solver verdict: fixed data, the real minimize_oc with the real NumPy; evidence kind
    `concrete-regression`): after one update the volume equals the prescribed (reachable) volume to bisection tolerance.
    The bound follows from the definition: V(lam) = sum clip(x sqrt(-g/lam)) is monotone, the bisection ends with its
    multiplier within l1l2tol of the root, so |V - maxvol| <= l1l2tol * max |dV/dlam| near the root (factor 2 for safety)."""
    import pymoto as pym
    from pymoto import routines as rt
    Mod = _user_module()
    n, tol = cfg["n"], float(cfg["l1l2tol"])
    lam_star = float(cfg["lam"])
    x0 = np.array([0.35 + 0.1 * (i % 4) for i in range(n)])
    spread = np.array([0.6 + 0.25 * (i % 5) for i in range(n)])
    coef = lam_star * spread * x0 * x0          # -g_i / lam_star = spread_i: some variables grow, some shrink
    xmin, xmax, move = 0.05, 1.0, 0.2
    if V.symbolic:
        from symx import npshim
        npshim.uninstall()
    try:
        sx = pym.Signal("x", x0.copy())
        sf = pym.Signal("f")
        net = pym.Network(Mod(sx, sf, coef=[coef]))
        maxvol = float(np.sum(x0))
        with warnings.catch_warnings():
            warnings.simplefilter("ignore")
            rt.minimize_oc(net, [sx], sf, tolx=0.0, tolf=0.0, maxit=1, xmin=xmin, xmax=xmax, move=move, l1l2tol=tol,
                           maxvol=maxvol, verbosity=0)
        x1 = np.asarray(sx.state, dtype=float)
    finally:
        if V.symbolic:
            npshim.install()
    g = coef / (x0 * x0)
    lo, hi = np.maximum(xmin, x0 - move), np.minimum(xmax, x0 + move)

    def vol(lam):
        return float(np.sum(np.clip(x0 * np.sqrt(g / lam), lo, hi)))
    a, b = 1e-12, 1e5
    for _ in range(400):
        mid = 0.5 * (a + b)
        a, b = (mid, b) if vol(mid) - maxvol > 0 else (a, mid)
    root = 0.5 * (a + b)
    lam_lo = max(root - 2 * tol, 0.5 * root)
    slope = float(np.sum(x0 * np.sqrt(g)) / (2 * lam_lo ** 1.5))
    bound = 2 * tol * slope + 1e-12
    err = abs(float(np.sum(x1)) - maxvol)
    reachable = vol(1e-12) >= maxvol >= vol(1e5)
    ok = bool(reachable and np.isfinite(err) and err <= bound)
    inb = bool(np.all(x1 >= lo - 1e-12) and np.all(x1 <= hi + 1e-12))
    if P is not None:
        P.holds("oc-volume:equals-maxvol-to-bisection-tolerance", ok, kind="concrete-regression:oc-volume")
        P.holds("oc-volume:bounds-and-move-limit", inb, kind="concrete-regression:oc-volume")
    return dict(err_over_bound=(err / bound if np.isfinite(err) else 1e300), inb=float(inb), reachable=float(reachable))


SCEN = dict(oc=sc_oc, oc_volume_concrete=sc_oc_volume_concrete)


def run_item(cfg, tier):
    return symbolic_run(SCEN[cfg["kind"]], cfg, tier, max_paths=200)


def replay(cfg, label, env, case):
    """Floats on the real library: real minimize_oc with the model values, the violated clause evaluated numerically."""
    want_exc = label.split(":", 1)[1] if label.startswith("exception:") else None
    if cfg["kind"] == "oc_volume_concrete":
        obs = sc_oc_volume_concrete(Vals(env=env), None, cfg)
        bad = not (obs["err_over_bound"] <= 1.0) or not obs["inb"] or not obs["reachable"]
        return dict(reproduced=bool(bad), detail=obs)
    try:
        obs = SCEN[cfg["kind"]](Vals(env=env), None, cfg)
    except Exception as e:
        if want_exc is not None:
            return dict(reproduced=type(e).__name__ == want_exc, detail="%s: %s" % (type(e).__name__, str(e)[:300]))
        from .common import _raised_in_repo
        return dict(reproduced=(True if _raised_in_repo(e) else None),
                    detail="concrete run raised %s: %s" % (type(e).__name__, str(e)[:300]))
    if want_exc is not None:
        return dict(reproduced=False, detail="no exception on the real library")
    bad, det = obs["_clauses"].evaluate(label)
    det["final"] = {k: np.asarray(v, dtype=float).tolist() for k, v in obs.items() if k.endswith("_final")}
    return dict(reproduced=bool(bad) if bad is not None else False, detail=det)
