"""C07 - linear-system modules satisfy their defining equations.

Executed for real: LinSolve._response (class detection, auto_determine_solver, LDAWrapper wrapping), the dense
solver classes on deterministic factor models (LU / LDL elimination, triangular substitution), Inverse,
SystemOfEquations (partitioning, reaction recovery), StaticCondensation (inner LinSolve, Schur complement).
"""
import itertools
import numpy as np

from symx import R, C, SB
from symx.array import wrap, is_complex_content
from .common import symbolic_run, Vals
from .catalogue import (BUILDERS, dense_entries, _matrix, _mk_sparse, assume_nonsingular, b_sysofeq, b_statcond,
                        b_inverse)

PROPERTY = "C07"
BOUNDS = {
    "quick": dict(linsolve_n=[2, 3], classes=["general", "symmetric", "diagonal", "complex general", "hermitian"],
                  sysofeq_n=[2, 3], statcond_n=[3, 4], rhs="vector and 2-column block"),
    "thorough": dict(linsolve_n=[2, 3, 4], classes=["general", "symmetric", "diagonal", "complex general", "hermitian",
                                                    "complex symmetric"], sysofeq_n=[2, 3, 4], statcond_n=[3, 4],
                     rhs="vector and 2-column block"),
}
OUTSIDE = ["n beyond the bound", "accuracy of LAPACK / SuperLU factorizations (C05 checks the solver classes on factor "
           "models; here dense LU/LDL are exact elimination models and sparse LU is a contract oracle)",
           "IEEE rounding, conditioning"]
ASSUMPTIONS = ["float64 arithmetic modelled as exact real arithmetic; np.allclose in the matrix classification read as exact equality",
               "matrices are non-singular (det != 0) with non-zero elimination pivots where the LU/LDL model is used"]
ITEM_TIMEOUT = {"quick": 240, "thorough": 900}


def items(tier):
    q = tier == "quick"
    out = []

    def add(kind, ident, **kw):
        out.append(dict(kind=kind, id="%s-%s" % (kind, ident), **kw))
    # (a) LinSolve plumbing with a contract-oracle inner solver (any class, dense/sparse, LDAWrapper on/off)
    for n in BOUNDS[tier]["linsolve_n"]:
        for mclass in ("general", "symmetric"):
            for sparse in (False, True):
                for lda in (False, True):
                    if lda and (n > 2 or q and sparse):
                        continue
                    add("linsolve", "orc-n%d-%s-%s-%s" % (n, mclass, "sp" if sparse else "de", "lda" if lda else "nolda"),
                        n=n, mclass=mclass, sparse=sparse, lda=lda, solver="oracle")
    add("linsolve", "orc-n2-2rhs", n=2, mclass="general", nrhs=2, lda=False, solver="oracle")
    add("linsolve", "orc-n2-2rhs-sp", n=2, mclass="general", nrhs=2, sparse=True, lda=False, solver="oracle")
    # one load case handed over as an (n, 1) block, through the default wrapped solver and without it; a one-dof system
    add("linsolve", "orc-n2-1rhs-block-lda", n=2, mclass="general", nrhs=1, lda=True, solver="oracle")
    add("linsolve", "orc-n2-1rhs-block", n=2, mclass="general", nrhs=1, lda=False, solver="oracle")
    add("linsolve", "orc-n1-lda", n=1, mclass="general", lda=True, solver="oracle")
    add("sysofeq", "n3-1rhs-block", n=3, free=[0, 2], nrhs=1, mclass="general", sparse=True)
    if not q:
        add("linsolve", "orc-n2-2rhs-lda", n=2, mclass="general", nrhs=2, lda=True, solver="oracle")
    add("linsolve", "orc-n2-cplx", n=2, mclass="general", cplx=True, lda=False, solver="oracle")
    add("linsolve", "orc-n2-herm", n=2, mclass="hermitian", cplx=True, lda=False, solver="oracle")
    add("linsolve", "orc-n2-csym", n=2, mclass="symmetric", cplx=True, lda=False, solver="oracle")
    add("linsolve", "orc-n2-cplxrhs", n=2, mclass="general", cplx_rhs=True, lda=False, solver="oracle")
    add("linsolve", "orc-n2-symflag", n=2, mclass="symmetric", lda=False, solver="oracle", flags=dict(symmetric=True))
    add("linsolve", "orc-n2-hermflag", n=2, mclass="hermitian", cplx=True, lda=False, solver="oracle", flags=dict(hermitian=True))
    if not q:
        add("linsolve", "orc-n2-cplx-lda", n=2, mclass="general", cplx=True, lda=True, solver="oracle")
        add("linsolve", "orc-n2-herm-lda", n=2, mclass="hermitian", cplx=True, lda=True, solver="oracle")
    # (b) LinSolve with its own solver choice: the real dense solver classes on exact factor models
    for n in BOUNDS[tier]["linsolve_n"]:
        add("linsolve", "real-n%d-general" % n, n=n, mclass="general", lda=False, solver="real", nonsym=True)
        add("linsolve", "real-n%d-diagonal" % n, n=n, mclass="diagonal", lda=False, solver="real")
        add("linsolve", "real-n%d-sparse" % n, n=n, mclass="general", sparse=True, lda=False, solver="real")
    add("linsolve", "real-n2-symindef", n=2, mclass="symmetric", lda=False, solver="real", indef=True)
    # tolerances of the matrix classification modelled as the inequalities NumPy evaluates (np.allclose), couplings assumed
    # to be at least 1e-6 in absolute value: no coupling may be dropped by the choice of the solver
    add("linsolve", "real-n2-general-closetol", n=2, mclass="general", lda=False, solver="real", nonsym=True, faithful_close=True)
    add("linsolve", "real-n2-sym-closetol", n=2, mclass="symmetric", lda=False, solver="real", indef=True, faithful_close=True)
    add("linsolve", "real-n2-general-lda", n=2, mclass="general", lda=True, solver="real", nonsym=True)
    add("linsolve", "real-n2-2rhs", n=2, mclass="general", nrhs=2, lda=False, solver="real", nonsym=True)
    add("linsolve", "real-n2-cplx", n=2, mclass="general", cplx=True, lda=False, solver="real", nonsym=True)
    # user-supplied class flags with the module's own solver choice (a wrong promotion symmetric -> hermitian shows here)
    add("linsolve", "real-n2-csym-symflag", n=2, mclass="symmetric", cplx=True, lda=False, solver="real",
        flags=dict(symmetric=True), nonherm=True)
    add("linsolve", "real-n2-csym-noflag", n=2, mclass="symmetric", cplx=True, lda=False, solver="real", nonherm=True)
    add("linsolve", "real-n2-herm-hermflag", n=2, mclass="hermitian", cplx=True, lda=False, solver="real",
        flags=dict(hermitian=True), indef=True)
    add("linsolve", "real-n2-sym-symflag", n=2, mclass="symmetric", lda=False, solver="real", flags=dict(symmetric=True), indef=True)
    if not q:
        add("linsolve", "real-n2-spd", n=2, mclass="symmetric", lda=False, solver="real", posdiag=True)
        add("linsolve", "real-n3-symindef", n=3, mclass="symmetric", lda=False, solver="real", indef=True)
    for n in ([2, 3] if q else [2, 3]):
        add("inverse", "n%d" % n, n=n)
    add("inverse", "n2-cplx", n=2, cplx=True)
    for n in BOUNDS[tier]["sysofeq_n"]:
        for r in range(1, n):
            for free in itertools.combinations(range(n), r):
                for sparse in (True, False):
                    if q and n == 3 and sparse is False and free not in ((0, 2), (1,)):
                        continue
                    add("sysofeq", "n%d-f%s-%s" % (n, "".join(map(str, free)), "sp" if sparse else "de"), n=n,
                        free=list(free), mclass="general", sparse=sparse)
    add("sysofeq", "n3-2rhs", n=3, free=[0, 2], nrhs=2, mclass="general", sparse=True)
    add("sysofeq", "n3-2rhs-dense", n=3, free=[0, 2], nrhs=2, mclass="general", sparse=False)
    add("sysofeq", "n3-freeonly", n=3, free=[0, 1], given="free", mclass="general", sparse=True)
    add("sysofeq", "n3-presonly", n=3, free=[1, 2], given="prescribed", mclass="general", sparse=True)
    add("sysofeq", "n3-sym", n=3, free=[0, 2], mclass="symmetric", sparse=True)
    # real dense matrix, complex applied loads (NumPy's real/complex assignment rules modelled: logical dtypes)
    add("sysofeq", "n3-f02-de-cplxloads", n=3, free=[0, 2], mclass="general", sparse=False, cplx_rhs=True, logical_dtype=True)
    add("sysofeq", "n2-f0-de-cplxloads", n=2, free=[0], mclass="general", sparse=False, cplx_rhs=True, logical_dtype=True)
    # complex matrix, real applied loads and prescribed values: the reactions b_p are complex
    add("sysofeq", "n2-f0-de-cplxA-realloads", n=2, free=[0], mclass="general", cplx=True, sparse=False, real_loads=True, logical_dtype=True)
    add("sysofeq", "n3-f02-sp-cplxA-realloads", n=3, free=[0, 2], mclass="general", cplx=True, sparse=True, real_loads=True, logical_dtype=True)
    # index sets in the user's own (not ascending) order: b_f and x_p follow that order
    add("sysofeq", "n3-f20-unsorted", n=3, free=[2, 0], mclass="general", sparse=True)
    add("sysofeq", "n3-p20-unsorted", n=3, free=[1], pres=[2, 0], mclass="general", sparse=False)
    add("sysofeq", "n4-f30-p21-unsorted", n=4, free=[3, 0], pres=[2, 1], mclass="general", sparse=True)
    add("sysofeq", "n3-f20-freeonly-unsorted", n=3, free=[2, 0], given="free", mclass="general", sparse=True)
    add("sysofeq", "n3-p20-presonly-unsorted", n=3, free=[1], pres=[2, 0], given="prescribed", mclass="general", sparse=True)
    for (n, main, free) in [(3, [0], [1, 2]), (3, [0, 2], [1]), (3, [1], [0]), (4, [0], [1, 2]), (4, [0, 3], [1, 2])] + \
            ([] if q else [(4, [2], [0, 1, 3])]):
        for sparse in (True, False):
            add("statcond", "n%d-m%s-f%s-%s" % (n, "".join(map(str, main)), "".join(map(str, free)), "sp" if sparse else "de"),
                n=n, main=main, free=free, sparse=sparse)
    # non-symmetric matrices (the Schur complement A_mm - A_mf A_ff^-1 A_fm is defined for every class)
    for (n, main, free) in [(3, [0], [1, 2]), (3, [0, 2], [1]), (4, [0, 3], [1, 2]), (4, [3, 0], [2, 1])]:
        for sparse in (True, False):
            add("statcond", "n%d-m%s-f%s-%s-general" % (n, "".join(map(str, main)), "".join(map(str, free)), "sp" if sparse else "de"),
                n=n, main=main, free=free, sparse=sparse, mclass="general")
    return out


# ------------------------------------------------------------------------------------------------
def sc_linsolve(V, P, cfg):
    """LinSolve with its own solver choice (dense: real solver classes on exact factor models)."""
    import pymoto as pym
    n, nrhs = cfg["n"], cfg.get("nrhs", 0)
    A = _matrix(V, cfg, "A", n)
    assume_nonsingular(V, A, "A")
    shp = (n,) if nrhs == 0 else (n, nrhs)
    cplx_rhs = cfg.get("cplx_rhs", cfg.get("cplx", False))
    xs = V.cplxs("xs", shp) if cplx_rhs else V.reals("xs", shp)
    b = A @ xs
    sparse = cfg.get("sparse", False)
    if V.symbolic:
        if cfg.get("faithful_close"):
            for i in range(n):
                for j in range(n):
                    if i != j:
                        e = A[i, j]
                        V.assume(abs(e.re if isinstance(e, C) else e) * 10 ** 6 >= 1, "couplings |A_ij| >= 1e-6")
        if cfg.get("nonsym"):
            V.assume(A[0, 1] != A[1, 0], "general class: A is not symmetric (the symmetric class has its own items)")
        if cfg.get("indef"):
            d0, d1 = (A[0, 0].re, A[1, 1].re) if isinstance(A[0, 0], C) else (A[0, 0], A[1, 1])
            V.assume(d0 < 0, "indefinite symmetric/Hermitian class: A_00 < 0 < A_11 (LDL branch)")
            V.assume(d1 > 0)
        if cfg.get("nonherm"):
            V.assume(A[0, 1].im != 0, "complex symmetric but not Hermitian")
        if cfg.get("posdiag"):
            for i in range(n):
                V.assume(A[i, i] > 0, "positive diagonal (Cholesky branch, success or fall-back)")
    sA, sb = pym.Signal("A", _mk_sparse(V, A) if sparse else A), pym.Signal("b", b)
    kw = dict(cfg.get("flags", {}))
    if cfg.get("solver") == "oracle" and V.symbolic:
        from symx.oracles import ContractSolver
        kw["solver"] = ContractSolver()
    m = pym.LinSolve([sA, sb], **kw)
    m.use_lda_solver = bool(cfg.get("lda", False))
    if V.symbolic:
        from symx import oracles
        oracles.add_candidate(xs)
    m.response()
    x = m.sig_out[0].state
    if P is not None:
        Ad = np.asarray(A)
        P.arrays_eq("A@x==b", Ad @ np.asarray(x), np.asarray(b), kind="defining-equation")
        P.holds("shape", np.shape(x) == shp, kind="shape")
    return dict(x=x)


def sc_inverse(V, P, cfg):
    setup = b_inverse(V, cfg)
    m = setup.module
    A = dense_entries(setup.inputs[0].state)
    m.response()
    B = m.sig_out[0].state
    if P is not None:
        n = cfg["n"]
        I = np.array([[1 if i == j else 0 for j in range(n)] for i in range(n)], dtype=object)
        P.arrays_eq("A@B==I", np.asarray(A) @ np.asarray(B), I, kind="defining-equation")
    return dict(B=B)


def sc_sysofeq(V, P, cfg):
    setup = b_sysofeq(V, cfg)
    m = setup.module
    A = np.asarray(dense_entries(setup.inputs[0].state))
    bf = np.asarray(setup.inputs[1].state)
    xp = np.asarray(setup.inputs[2].state)
    n = cfg["n"]
    free = np.array(cfg["free"], dtype=int)
    pres = np.array(cfg["pres"] if cfg.get("pres") else [i for i in range(n) if i not in cfg["free"]], dtype=int)
    m.response()
    x, b = m.sig_out[0].state, m.sig_out[1].state
    if P is not None:
        x_, b_ = np.asarray(x), np.asarray(b)
        P.arrays_eq("A@x==b", A @ x_, b_, kind="defining-equation")
        P.arrays_eq("x[p]==xp", x_[pres], xp, kind="prescribed-values")
        P.arrays_eq("b[f]==bf", b_[free], bf, kind="applied-loads")
    return dict(x=x, b=b)


def sc_statcond(V, P, cfg):
    setup = b_statcond(V, cfg)
    m = setup.module
    A = np.asarray(dense_entries(setup.inputs[0].state))
    n = cfg["n"]
    main, free = np.array(cfg["main"], dtype=int), np.array(cfg["free"], dtype=int)
    m.response()
    Ared = dense_entries(m.sig_out[0].state)
    if P is not None:
        # the condensed system reproduces the main-dof response of the full system:
        # for every x_m, with x_f solving A_ff x_f = -A_fm x_m (and all other dofs zero):  A_red x_m == (A x)[m]
        xm = V.reals("xm", len(main))
        Aff, Afm = A[np.ix_(free, free)], A[np.ix_(free, main)]
        # x_f is characterised by its equation only (no inverse): fresh unknowns constrained by A_ff x_f = -A_fm x_m
        from symx import oracles
        xf = oracles.solve_contract(Aff, -(Afm @ np.asarray(xm)), 'N', count=False, label="xf")
        x = np.array([0] * n, dtype=object)
        x[main] = np.asarray(xm)
        x[free] = np.asarray(xf)
        P.arrays_eq("Ared@xm==(A@x)[m]", np.asarray(Ared) @ np.asarray(xm), (A @ x)[main], kind="schur-complement")
        P.holds("shape", np.shape(Ared) == (len(main), len(main)), kind="shape")
    return dict(Ared=Ared)


SCEN = dict(linsolve=sc_linsolve, inverse=sc_inverse, sysofeq=sc_sysofeq, statcond=sc_statcond)


def run_item(cfg, tier):
    if cfg.get("faithful_close"):
        from symx import npshim
        npshim.EXACT_CLOSE = False      # forked worker only
    if cfg.get("logical_dtype"):
        from symx.array import enable_logical_dtype
        enable_logical_dtype(True)      # forked worker only
    return symbolic_run(SCEN[cfg["kind"]], cfg, tier, max_paths=cfg.get("max_paths", 120))


def replay(cfg, label, env, case):
    import warnings
    warnings.simplefilter("ignore")
    V = Vals(env=env)
    kind = cfg["kind"]
    if label.startswith("exception:"):
        try:
            SCEN[kind](V, None, cfg)
        except Exception as e:
            return dict(reproduced=type(e).__name__ == label.split(":", 1)[1], detail="%s: %s" % (type(e).__name__, str(e)[:300]))
        return dict(reproduced=False, detail="no exception on the real library")
    tol = 1e-8
    if kind == "linsolve":
        import pymoto as pym
        n, nrhs = cfg["n"], cfg.get("nrhs", 0)
        A = _matrix(V, cfg, "A", n)
        shp = (n,) if nrhs == 0 else (n, nrhs)
        cplx_rhs = cfg.get("cplx_rhs", cfg.get("cplx", False))
        xs = V.cplxs("xs", shp) if cplx_rhs else V.reals("xs", shp)
        b = A @ xs
        obs = sc_linsolve(V, None, cfg)
        r = np.max(np.abs(A @ np.asarray(obs["x"]) - b)) / max(1.0, np.max(np.abs(b)))
        return dict(reproduced=bool(r > tol), detail=dict(residual=float(r)))
    if kind == "inverse":
        n = cfg["n"]
        A = _matrix(V, cfg, "A", n)
        B = np.asarray(sc_inverse(V, None, cfg)["B"])
        r = np.max(np.abs(A @ B - np.eye(n)))
        return dict(reproduced=bool(r > tol), detail=dict(residual=float(r)))
    if kind == "sysofeq":
        setup = b_sysofeq(V, cfg)
        m = setup.module
        A = np.asarray(dense_entries(setup.inputs[0].state))
        bf, xp = np.asarray(setup.inputs[1].state), np.asarray(setup.inputs[2].state)
        n = cfg["n"]
        free = np.array(cfg["free"], dtype=int)
        pres = np.array(cfg["pres"] if cfg.get("pres") else [i for i in range(n) if i not in cfg["free"]], dtype=int)
        m.response()
        x, b = np.asarray(m.sig_out[0].state), np.asarray(m.sig_out[1].state)
        sc = max(1.0, float(np.max(np.abs(b))))
        r1 = float(np.max(np.abs(A @ x - b))) / sc
        r2 = float(np.max(np.abs(x[pres] - xp)))
        r3 = float(np.max(np.abs(b[free] - bf)))
        bad = (r1 > tol and "A@x" in label) or (r2 > tol and "x[p]" in label) or (r3 > tol and "b[f]" in label)
        return dict(reproduced=bool(bad), detail=dict(res_Ax_b=r1, res_xp=r2, res_bf=r3))
    if kind == "statcond":
        setup = b_statcond(V, cfg)
        m = setup.module
        A = np.asarray(dense_entries(setup.inputs[0].state), dtype=float)
        main, free = np.array(cfg["main"], dtype=int), np.array(cfg["free"], dtype=int)
        m.response()
        Ared = np.asarray(dense_entries(m.sig_out[0].state), dtype=float)
        S = A[np.ix_(main, main)] - A[np.ix_(main, free)] @ np.linalg.solve(A[np.ix_(free, free)], A[np.ix_(free, main)])
        r = float(np.max(np.abs(Ared - S))) / max(1.0, float(np.max(np.abs(S))))
        return dict(reproduced=bool(r > tol), detail=dict(residual=r))
    return dict(reproduced=None, detail="no replay")
