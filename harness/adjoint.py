"""Generic adjoint obligation used by C01 / C04 / C19: for every independent real symbol s of the
module inputs,   Re sum_e g_e * d x_e/d s  ==  d/ds Re sum_j w_j * y_j   (finite_difference convention)."""
from fractions import Fraction
import numpy as np
import z3

from symx import R, C, SB
from symx import diffz3
from symx.array import SymArray, wrap, is_complex_content
from .catalogue import dense_entries


def free_symbols(entries_list, c):
    """Names/terms of the real symbols the given entries depend on (through definitional symbols too)."""
    from symx.scalars import _factor_terms
    defs = getattr(c, "_uf_defs", {})
    roots = getattr(c, "_root_defs", {})
    seen = set()
    out = {}
    stack = []

    def push_R(r):
        if r.q is not None:
            return
        stack.append(r.n)
        for k, m in r.d:
            stack.append(_factor_terms[k])
    for ent in entries_list:
        if ent is None:
            continue
        for e in np.asarray(ent, dtype=object).flat:
            if isinstance(e, C):
                push_R(e.re)
                push_R(e.im)
            elif isinstance(e, R):
                push_R(e)
    while stack:
        t = stack.pop()
        k = t.get_id()
        if k in seen:
            continue
        seen.add(k)
        if z3.is_const(t) and t.decl().kind() == z3.Z3_OP_UNINTERPRETED:
            if k in defs:
                push_R(defs[k])
            elif k in roots:
                stack.append(roots[k][0])
            else:
                nm = t.decl().name()
                if not nm.startswith("sqrt_"):
                    out[nm] = t
        else:
            for ch in t.children():
                stack.append(ch)
    return [out[k] for k in sorted(out)]


def flat(entries):
    if entries is None:
        return []
    return list(np.asarray(entries, dtype=object).flat)


def inner_real(ws, ys):
    return diffz3.real_part_inner(ws, ys)


def make_seed(V, j, state, kind, setup, tag="w"):
    """Returns (object to assign to Signal.sensitivity, dense entries W of the seed)."""
    import pymoto as pym
    ent = dense_entries(state)
    name = "%s%d" % (tag, j)
    if V.symbolic:
        cplx = is_complex_content(ent)
    else:
        # concrete mode: follow the symbolic run (LAPACK may return a complex dtype with zero imaginary parts for a
        # real problem; the seed symbols of the symbolic run were then real)
        cplx = any(k == name + "_re" or (k.startswith(name + "_") and k.endswith("_re")) for k in (V.env or {}))
        if not cplx and not any(k == name or k.startswith(name + "_") for k in (V.env or {})):
            cplx = bool(np.iscomplexobj(ent))
    if np.ndim(ent) == 0:
        w = V.cplx(name) if cplx else V.real(name)
        if V.symbolic and getattr(V.c, "seed_nonzero", False):
            V.assume((w.re if isinstance(w, C) else w) != 0, "generic (non-zero) seeds")
        return w, np.array(w, dtype=object if V.symbolic else None)
    shp = np.shape(ent)
    if kind == "dyad":
        nd = 2
        us = [V.reals("%su%d" % (name, k), shp[0]) for k in range(nd)]
        vs = [V.reals("%sv%d" % (name, k), shp[1]) for k in range(nd)]
        if V.symbolic:      # DyadCarrier drops zero vectors: keep one path by making each vector non-zero
            for vec in us + vs:
                V.assume(vec[0] != 0, "dyadic seed vectors have a non-zero first entry")
        dy = pym.DyadCarrier(list(us), list(vs))
        W = sum(np.outer(u, v) for u, v in zip(us, vs))
        return dy, W
    w = V.cplxs(name, shp) if cplx else V.reals(name, shp)
    if V.symbolic and getattr(V.c, "seed_nonzero", False):
        for e in np.asarray(w, dtype=object).flat:
            V.assume((e.re if isinstance(e, C) else e) != 0, "generic (non-zero) seeds")
    return w, np.asarray(w)


def adjoint_obligations(P, c, in_entries, g_entries, y_entries, W_entries, label="adj", base=None, tangent=None):
    """One obligation per independent input symbol s:
           sum_e Re(g_e * dx_e/ds)  ==  sum_j Re(w_j * dy_j/ds)
    The seeds w are constants of the statement (they may be *defined* from other symbols by a
    pre-image parametrisation, so the right-hand side differentiates the outputs only).
    `tangent(s_term)` may supply dy/ds for outputs defined implicitly by an oracle."""
    syms = base if base is not None else free_symbols(in_entries, c)
    n = 0
    for s in syms:
        D = diffz3._Differ(s)
        lhs = R(q=Fraction(0))
        for X, G in zip(in_entries, g_entries):
            if X is None:
                continue
            xs = flat(X)
            gs = flat(G) if G is not None else [0] * len(xs)
            if len(gs) != len(xs):
                P.holds("%s:shape(d/d%s)" % (label, s), False, kind="adjoint-shape")
                continue
            for xe, ge in zip(xs, gs):
                lhs = lhs + _re_times_d(ge, xe, D)
        rhs = R(q=Fraction(0))
        dys = tangent(s) if tangent is not None else None
        for j, (W, Y) in enumerate(zip(W_entries, y_entries)):
            if W is None:
                continue
            if dys is not None and dys[j] is not None:
                for we, dye in zip(flat(W), flat(dys[j])):
                    wC, dC = C.of(we), C.of(dye)
                    rhs = rhs + wC.re * dC.re - wC.im * dC.im
            else:
                for we, ye in zip(flat(W), flat(Y)):
                    rhs = rhs + _re_times_d(we, ye, D)
        P.eq("%s:d/d%s" % (label, s), lhs, rhs, kind="adjoint")
        n += 1
    return n


def _re_times_d(coef, val, D):
    """Re(coef * d val/ds) for scalars (R / C / numbers)."""
    if isinstance(val, C):
        dre, dim = D.dR(val.re), D.dR(val.im)
        if dre.q == 0 and dim.q == 0:
            return R(q=Fraction(0))
        cC = C.of(coef)
        return cC.re * dre - cC.im * dim
    if isinstance(val, R):
        d = D.dR(val)
        if d.q == 0:
            return R(q=Fraction(0))
        cr = coef.re if isinstance(coef, C) else R.of(coef)
        return cr * d
    return R(q=Fraction(0))


# ------------------------------------------------------------------------------------------------
# numeric side (replay): directional derivative by Richardson-extrapolated central differences
def numeric_directional(fun, x0, h=1e-4):
    """fun: flat float vector -> float. Returns gradient by 4th-order central differences."""
    x0 = np.asarray(x0, dtype=float)
    g = np.zeros_like(x0)
    for i in range(x0.size):
        def f(t):
            x = x0.copy()
            x[i] += t
            return fun(x)
        d1 = (f(h) - f(-h)) / (2 * h)
        d2 = (f(h / 2) - f(-h / 2)) / h
        g[i] = (4 * d2 - d1) / 3
    return g
