"""C12 - element-level operators reproduce affine fields exactly and agree with assembly.

Executed for real: ElementOperation, Strain, Stress, ElementAverage, NodalOperation, ThermoMechanical
(_prepare with the Gauss loops, get_B, get_D; _response with the gather / scatter) and AssembleStiffness.

References (harness/refs_fe.py, written from the definitions): node coordinates from Cartesian indices times the
symbolic element sizes, affine field u(X) = u0 + G X, strain = symmetric gradient with engineering shears in the Voigt
order documented in get_B (2D [xx, yy, xy]; 3D [xx, yy, zz, yz, zx, xy]), Hooke's law in tensor form
sigma = lam tr(e) I + 2 mu e (plane stress: lam from sigma_zz = 0), gather / scatter with plain loops.
"""
import numpy as np

from symx import R
from .common import symbolic_run
from .refs_fe import (Mesh, Chk, dense, dot, matvec, tot, zeros, lame, ref_strain, ref_stress, ref_energy_density,
                      affine_field, voigt_pairs, prefer_moderate, prefer, generic_replay)

PROPERTY = "C12"

_M2Q = [(1, 1, 0), (2, 1, 0), (1, 2, 0), (2, 2, 0)]
_M2T = _M2Q + [(3, 2, 0)]
_M3Q = [(1, 1, 1)]
_M3T = _M3Q + [(2, 1, 1), (2, 2, 1)]

BOUNDS = {
    "quick": dict(meshes_2d=_M2Q, meshes_3d=_M3Q, dofs_per_node=[1, 2, 3], operator_shapes=["(k)", "(m,k)", "(l,m,k)"],
                  plane=["strain", "stress"], voigt=[True, False],
                  symbolic="displacement gradient G, offset u0, element sizes > 0 (unit out-of-plane thickness in 2D), "
                           "E > 0, -1 < nu < 1/2, alpha, dT, scaling vector x, element operator matrices, nodal and "
                           "elemental vectors of the transpose relation"),
    "thorough": dict(meshes_2d=_M2T, meshes_3d=_M3T, dofs_per_node=[1, 2, 3],
                     operator_shapes=["(k)", "(m,k)", "(l,m,k)"], plane=["strain", "stress"], voigt=[True, False],
                     symbolic="as quick"),
}
OUTSIDE = ["out-of-plane thickness != 1 for the 2D stress / energy / thermal clauses (as the property says)",
           "meshes larger than the grid, 1D domains, user-overridden node_numbering", "non-affine fields",
           "non-uniform temperature difference in the free-expansion clause (no compatible free field exists)",
           "IEEE rounding"]
ASSUMPTIONS = ["float64 arithmetic modelled as exact real arithmetic; np.sqrt(3) is an algebraic constant s>0, s*s=3",
               "Strain(voigt=False) is checked against the ENGINEERING shear gamma_ij = G_ij + G_ji as well (that is "
               "what the un-doubled B matrix of get_B produces; the class docstring calls it eps_xy)",
               "scipy.sparse constructor of AssembleStiffness replaced by SymSparse (validated by the concretised twin)",
               "free thermal expansion: uniform temperature difference dT, arbitrary densities x: the module input is "
               "x_e*dT, K is assembled with x, u_free = alpha*dT*X"]
ITEM_TIMEOUT = {"quick": 240, "thorough": 900}
REPLAYS_PER_GROUP = 3


# ------------------------------------------------------------------------------------------------
def _setup(V, cfg, unit_thickness=True):
    import pymoto as pym
    M = Mesh(cfg["mesh"])
    ux = V.real("ux", positive=True, default=1.0)
    uy = V.real("uy", positive=True, default=1.5)
    if M.dim == 3:
        uz = V.real("uz", positive=True, default=0.75)
        pos = [ux, uy, uz]
    elif cfg.get("thick"):
        uz = V.real("uz", positive=True, default=0.5)     # 2-D with a free out-of-plane thickness
        pos = [ux, uy]
    else:
        uz = V.const(1)          # unit out-of-plane thickness (element_size[2] multiplies D in 2D)
        pos = [ux, uy]
    siz = [ux, uy, uz]
    prefer_moderate(V, pos)
    dom = pym.DomainDefinition(M.nx, M.ny, M.nz, unitx=ux, unity=uy, unitz=uz)
    vol = ux * uy * uz
    return M, dom, siz, vol


def _material(V):
    E = V.real("E", positive=True, default=2.0)
    nu = V.real("nu", default=0.25)
    V.assume(nu > -1, "-1 < nu < 1/2")
    V.assume(nu * 2 < 1)
    prefer_moderate(V, [E])
    return E, nu


def _affine(V, M, siz):
    G = V.reals("G", (M.dim, M.dim))
    u0 = V.reals("u0", M.dim)
    for (a, b) in voigt_pairs(M.dim):          # replay witnesses with a clearly non-zero shear
        prefer(V, (G[a, b] + G[b, a]) * (G[a, b] + G[b, a]) >= R.of("1/16"))
    u = affine_field(M.coords(siz), u0, G, M.dim)
    if V.symbolic:
        from symx.array import wrap
        a = np.empty(len(u), dtype=object)
        for i, v in enumerate(u):
            a[i] = R.of(v)
        return G, u0, wrap(a)
    return G, u0, np.array(u, dtype=float)


def _vec(V, vals):
    if V.symbolic:
        from symx.array import wrap
        a = np.empty(len(vals), dtype=object)
        for i, v in enumerate(vals):
            a[i] = R.of(v)
        return wrap(a)
    return np.array(vals, dtype=float)


def _rows_check(chk, name, out, ref, M, dim):
    """out: (nrows, nel) module output, ref: list of nrows expected values (same in every element)."""
    nrows = len(ref)
    chk.true("%s-shape" % name, tuple(np.shape(out)) == (nrows, M.nel), "%s-normal" % name)
    if tuple(np.shape(out)) != (nrows, M.nel):
        return
    for e in range(M.nel):
        for r in range(nrows):
            kind = "%s-normal" % name if r < dim else "%s-shear" % name
            chk.eq("%s[%d,%d]" % (kind, r, e), out[r, e], ref[r], kind)


# ------------------------------------------------------------------------------------------------
def _dom_unchanged(chk, dom, siz, M):
    """The DomainDefinition handed to an element operator is shared with every other module of the model (the assembly
    modules read element_size when THEY are constructed): constructing / evaluating an operator leaves it as it was."""
    es = np.asarray(dom.element_size)
    chk.true("domain.element_size-shape", tuple(es.shape) == (3,), "domain-unchanged")
    if tuple(es.shape) == (3,):
        for a_, (got_, want_) in enumerate(zip(es, siz)):
            chk.eq("domain.element_size[%d]-unchanged" % a_, got_, want_, "domain-unchanged")
    chk.true("domain.sizes-unchanged", (dom.nelx, dom.nely, dom.nelz, dom.dim) == (M.nx, M.ny, M.nz, M.dim), "domain-unchanged")


def sc_strain(V, P, cfg, chk=None):
    import pymoto as pym
    chk = chk or Chk(P)
    M, dom, siz, vol = _setup(V, cfg)
    G, u0, u = _affine(V, M, siz)
    m = pym.Strain(pym.Signal("u", u), domain=dom, **({} if cfg.get("voigt", True) else dict(voigt=False)))
    m.response()
    out = np.asarray(m.sig_out[0].state)
    _rows_check(chk, "strain", out, ref_strain(G, M.dim), M, M.dim)
    _dom_unchanged(chk, dom, siz, M)
    return dict(strain=out)


def sc_stress(V, P, cfg, chk=None):
    import pymoto as pym
    chk = chk or Chk(P)
    M, dom, siz, vol = _setup(V, cfg)
    E, nu = _material(V)
    G, u0, u = _affine(V, M, siz)
    plane = cfg.get("plane", "strain")
    m = pym.Stress(pym.Signal("u", u), domain=dom, e_modulus=E, poisson_ratio=nu, plane=plane)
    m.response()
    out = np.asarray(m.sig_out[0].state)
    lam, mu = lame(E, nu, M.dim, plane)
    _rows_check(chk, "stress", out, ref_stress(G, M.dim, lam, mu), M, M.dim)
    _dom_unchanged(chk, dom, siz, M)
    return dict(stress=out)


def sc_energy(V, P, cfg, chk=None):
    """sum_e x_e V_e stress_e . strain_e == u^T K(x) u, with the modules' own outputs (default voigt=True), with
    Strain(voigt=False) and the reference law, and K against the reference energy."""
    import pymoto as pym
    chk = chk or Chk(P)
    M, dom, siz, vol = _setup(V, cfg)
    E, nu = _material(V)
    G, u0, u = _affine(V, M, siz)
    plane = cfg.get("plane", "strain")
    x = V.reals("x", M.nel)
    prefer_moderate(V, list(x))
    def _assemble():
        mK = pym.AssembleStiffness(pym.Signal("x", x), domain=dom, e_modulus=E, poisson_ratio=nu, plane=plane)
        mK.response()
        return dense(mK.sig_out[0].state)
    ops_first = cfg.get("order") == "operators-first"     # post-processing modules constructed BEFORE the assembly module
    if not ops_first:
        K = _assemble()
    m_eps = pym.Strain(pym.Signal("u", u), domain=dom)
    m_eps.response()
    eps = np.asarray(m_eps.sig_out[0].state)
    m_sig = pym.Stress(pym.Signal("u", u), domain=dom, e_modulus=E, poisson_ratio=nu, plane=plane)
    m_sig.response()
    sig = np.asarray(m_sig.sig_out[0].state)
    m_nv = pym.Strain(pym.Signal("u", u), domain=dom, voigt=False)
    m_nv.response()
    eps_nv = np.asarray(m_nv.sig_out[0].state)
    if ops_first:
        K = _assemble()
    uKu = dot(u, matvec(K, u))
    _dom_unchanged(chk, dom, siz, M)
    lam, mu = lame(E, nu, M.dim, plane)
    dim = M.dim
    nrows = dim + len(voigt_pairs(dim))
    shapes_ok = all(tuple(np.shape(a)) == (nrows, M.nel) for a in (eps, sig, eps_nv))
    chk.true("energy-shapes", shapes_ok, "energy-identity")
    if not shapes_ok:
        return dict(uKu=uKu)
    en_mod, en_nv = 0, 0
    for e in range(M.nel):
        en_mod = en_mod + x[e] * vol * dot(sig[:, e], eps[:, e])
        # reference law applied to the module's un-doubled strain: normal part through lam/mu, shear part mu*gamma^2
        trn = tot(eps_nv[d, e] for d in range(dim))
        w = lam * trn * trn + 2 * mu * tot(eps_nv[d, e] * eps_nv[d, e] for d in range(dim)) \
            + mu * tot(eps_nv[r, e] * eps_nv[r, e] for r in range(dim, eps_nv.shape[0]))
        en_nv = en_nv + x[e] * vol * w
    chk.eq("energy-identity", en_mod, uKu, "energy-identity")
    chk.eq("energy-identity-novoigt", en_nv, uKu, "energy-identity-novoigt")
    chk.eq("energy-reference", uKu, ref_energy_density(G, dim, lam, mu) * vol * tot(x), "energy-reference")
    return dict(uKu=uKu, en_mod=en_mod, en_nv=en_nv)


def sc_average(V, P, cfg, chk=None):
    import pymoto as pym
    chk = chk or Chk(P)
    M, dom, siz, vol = _setup(V, cfg)
    ndof = cfg.get("ndof", 1)
    g = V.reals("g", (ndof, M.dim))
    c0 = V.reals("c0", ndof)
    vals = []
    for X in M.coords(siz):
        for c in range(ndof):
            vals.append(c0[c] + dot(g[c, :], X))
    m = pym.ElementAverage(pym.Signal("v", _vec(V, vals)), domain=dom)
    m.response()
    out = np.asarray(m.sig_out[0].state)
    cen = M.centroids(siz)
    exp = zeros((ndof, M.nel), V.symbolic)
    for e in range(M.nel):
        for c in range(ndof):
            exp[c, e] = c0[c] + dot(g[c, :], cen[e])
    if ndof == 1:
        exp = exp[0]
    chk.arrays_eq("element-average", out, exp, "element-average")
    return dict(avg=out)


def sc_transpose(V, P, cfg, chk=None):
    """ElementOperation(u) and NodalOperation(x) with one common symbolic element matrix A of shape opshape+(k,):
    gather / scatter references and <NodalOperation(x), u> == <x, ElementOperation(u)>."""
    import pymoto as pym
    chk = chk or Chk(P)
    M, dom, siz, vol = _setup(V, cfg)
    ndof = cfg.get("ndof", 1)
    ops = tuple(cfg.get("opshape", ()))
    k = ndof * len(M.local)
    A = V.reals("A", ops + (k,))
    u = V.reals("u", ndof * M.nnodes)
    x = V.reals("x", ops + (M.nel,))
    sU, sX = pym.Signal("u", u), pym.Signal("x", x)
    mE = pym.ElementOperation(sU, domain=dom, element_matrix=A)
    mE.response()
    y = np.asarray(mE.sig_out[0].state)
    mN = pym.NodalOperation(sX, domain=dom, element_matrix=A)
    mN.response()
    f = np.asarray(mN.sig_out[0].state)

    def refs(u, x):
        yref = zeros(ops + (M.nel,), V.symbolic)
        fref = zeros((ndof * M.nnodes,), V.symbolic)
        for e, nodes, _ in M.elements():
            dofs = [nd * ndof + d for nd in nodes for d in range(ndof)]
            for idx in np.ndindex(*ops):
                yref[idx + (e,)] = tot(A[idx + (q,)] * u[dofs[q]] for q in range(k))
                for q in range(k):
                    fref[dofs[q]] = fref[dofs[q]] + A[idx + (q,)] * x[idx + (e,)]
        return yref, fref
    yref, fref = refs(u, x)
    chk.arrays_eq("gather", y, yref, "element-gather")
    chk.arrays_eq("scatter", f, fref, "nodal-scatter")
    if tuple(y.shape) == tuple(x.shape):
        lhs = dot(list(f.reshape(-1)), list(np.asarray(u).reshape(-1)))
        rhs = dot(list(np.asarray(x).reshape(-1)), list(y.reshape(-1)))
        chk.eq("transpose", lhs, rhs, "transpose")
    obs = dict(y=y, f=f)
    if cfg.get("again"):
        # history on one object: the same modules evaluated for other fields (no reset in between, as in a finite
        # difference or a repeated Network.response())
        u2 = V.reals("ub", ndof * M.nnodes)
        x2 = V.reals("xb", ops + (M.nel,))
        y1, f1 = np.array(y, dtype=y.dtype), np.array(f, dtype=f.dtype)      # snapshots of the first results
        sU.state, sX.state = u2, x2
        mE.response()
        mN.response()
        yb, fb = np.asarray(mE.sig_out[0].state), np.asarray(mN.sig_out[0].state)
        yref2, fref2 = refs(u2, x2)
        chk.arrays_eq("second-field:gather", yb, yref2, "element-gather")
        chk.arrays_eq("second-field:scatter", fb, fref2, "nodal-scatter")
        obs.update(yb=yb, fb=fb)
    return obs


def sc_repeat(V, P, cfg, chk=None):
    """ElementOperation with a per-node element matrix (last dimension = #nodes per element) and ndof > 1: the
    operator is applied to every dof direction separately, output (ndof, ..., nel)."""
    import pymoto as pym
    chk = chk or Chk(P)
    M, dom, siz, vol = _setup(V, cfg)
    ndof = cfg.get("ndof", 2)
    ops = tuple(cfg.get("opshape", ()))
    nn = len(M.local)
    A = V.reals("A", ops + (nn,))
    u = V.reals("u", ndof * M.nnodes)
    mE = pym.ElementOperation(pym.Signal("u", u), domain=dom, element_matrix=A)
    mE.response()
    y = np.asarray(mE.sig_out[0].state)
    yref = zeros((ndof,) + ops + (M.nel,), V.symbolic)
    for e, nodes, _ in M.elements():
        for c in range(ndof):
            for idx in np.ndindex(*ops):
                yref[(c,) + idx + (e,)] = tot(A[idx + (q,)] * u[nodes[q] * ndof + c] for q in range(nn))
    chk.arrays_eq("gather-repeated", y, yref, "element-gather")
    return dict(y=y)


def sc_thermal(V, P, cfg, chk=None):
    import pymoto as pym
    chk = chk or Chk(P)
    M, dom, siz, vol = _setup(V, cfg)
    E, nu = _material(V)
    dim = M.dim
    plane = cfg.get("plane", "strain")
    alpha = V.real("alpha", default=0.5)
    dT = V.real("dT", default=1.25)
    x = V.reals("x", M.nel)
    prefer_moderate(V, [alpha, dT] + list(x))
    xin = _vec(V, [x[e] * dT for e in range(M.nel)])            # module input: density times temperature difference
    m = pym.ThermoMechanical(pym.Signal("xT", xin), domain=dom, e_modulus=E, poisson_ratio=nu, alpha=alpha, plane=plane)
    m.response()
    f = np.asarray(m.sig_out[0].state)
    n = dim * M.nnodes
    chk.true("thermal-shape", tuple(f.shape) == (n,), "thermal-equilibrium-force")
    if tuple(f.shape) != (n,):
        return dict(f=f)
    coords = M.coords(siz)
    for d in range(dim):
        chk.eq("thermal-force[%s]" % "xyz"[d], tot(f[q * dim + d] for q in range(M.nnodes)), 0, "thermal-equilibrium-force")
    for (a, b) in voigt_pairs(dim):
        mom = tot(coords[q][a] * f[q * dim + b] - coords[q][b] * f[q * dim + a] for q in range(M.nnodes))
        chk.eq("thermal-moment[%s%s]" % ("xyz"[a], "xyz"[b]), mom, 0, "thermal-equilibrium-moment")
    obs = dict(f=f)
    if cfg.get("again"):
        # the same module evaluated for another input: the load is linear in the input, f(2 xT) = 2 f(xT)
        f1 = np.array(f, dtype=f.dtype)
        m.sig_in[0].state = _vec(V, [2 * x[e] * dT for e in range(M.nel)])
        m.response()
        fb = np.asarray(m.sig_out[0].state)
        chk.arrays_eq("second-evaluation:f(2 xT)==2 f(xT)", fb, 2 * f1, "thermal-second-evaluation")
        obs["fb"] = fb
    if dim == 3 or plane == "stress":
        mK = pym.AssembleStiffness(pym.Signal("x", x), domain=dom, e_modulus=E, poisson_ratio=nu, plane=plane)
        mK.response()
        K = dense(mK.sig_out[0].state)
        ufree = [alpha * dT * coords[q][d] for q in range(M.nnodes) for d in range(dim)]
        Ku = matvec(K, ufree)
        chk.arrays_eq("thermal-free-expansion", f, np.array(Ku, dtype=object if V.symbolic else float),
                      "thermal-free-expansion")
    return obs


SCEN = {"strain": sc_strain, "stress": sc_stress, "energy": sc_energy, "average": sc_average,
        "transpose": sc_transpose, "repeat": sc_repeat, "thermal": sc_thermal}


# ------------------------------------------------------------------------------------------------
def VIEWS_LAYOUT_ITEMS(it, tier):
    return True


def items(tier):
    q = tier == "quick"
    out = []
    m2 = _M2Q if q else _M2T
    m3 = _M3Q if q else _M3T
    for mesh in m2 + m3:
        M = Mesh(mesh)
        tag = "%dx%dx%d" % tuple(mesh)
        out.append(dict(kind="strain", id="strain-%s-voigt" % tag, mesh=mesh, voigt=True))
        out.append(dict(kind="strain", id="strain-%s-novoigt" % tag, mesh=mesh, voigt=False))
        planes = ("strain", "stress") if M.dim == 2 else ("strain",)
        for pl in planes:
            ptag = pl if M.dim == 2 else "3d"
            out.append(dict(kind="stress", id="stress-%s-%s" % (tag, ptag), mesh=mesh, plane=pl))
            out.append(dict(kind="energy", id="energy-%s-%s" % (tag, ptag), mesh=mesh, plane=pl))
            if M.nel <= 2:
                # the same model with the element operators constructed before the assembly module (one shared domain object)
                out.append(dict(kind="energy", id="energy-%s-%s-operators-first" % (tag, ptag), mesh=mesh, plane=pl,
                                order="operators-first"))
            out.append(dict(kind="thermal", id="thermal-%s-%s" % (tag, ptag), mesh=mesh, plane=pl))
            if M.nel <= 2:
                out.append(dict(kind="thermal", id="thermal-%s-%s-again" % (tag, ptag), mesh=mesh, plane=pl, again=True))
            if M.dim == 2 and M.nel <= 2:
                # out-of-plane thickness != 1: stresses do not depend on it, K and the thermal load are proportional to it
                out.append(dict(kind="stress", id="stress-%s-%s-thick" % (tag, ptag), mesh=mesh, plane=pl, thick=True))
                out.append(dict(kind="energy", id="energy-%s-%s-thick" % (tag, ptag), mesh=mesh, plane=pl, thick=True))
                out.append(dict(kind="thermal", id="thermal-%s-%s-thick" % (tag, ptag), mesh=mesh, plane=pl, thick=True))
        if M.dim == 2 and M.nel <= 2:
            out.append(dict(kind="strain", id="strain-%s-voigt-thick" % tag, mesh=mesh, voigt=True, thick=True))
            for ndof in (1, 2):
                out.append(dict(kind="average", id="average-%s-ndof%d-thick" % (tag, ndof), mesh=mesh, ndof=ndof, thick=True))
        for ndof in (1, 2, 3):
            out.append(dict(kind="average", id="average-%s-ndof%d" % (tag, ndof), mesh=mesh, ndof=ndof))
        shapes = [(), (2,), (2, 2)]
        for ndof in (1, 2, 3):
            for ops in shapes:
                if q and (M.nnodes > 6 or M.dim == 3) and not ((ndof + len(ops)) % 3 == 0):
                    continue      # quick: a covering subset on the larger meshes
                out.append(dict(kind="transpose", id="transpose-%s-ndof%d-op%s" % (tag, ndof, "x".join(map(str, ops)) or "k"),
                                mesh=mesh, ndof=ndof, opshape=list(ops)))
                if M.nnodes <= 6 and (ndof + len(ops)) % 2 == 1:
                    out.append(dict(kind="transpose", id="transpose-%s-ndof%d-op%s-again" % (tag, ndof, "x".join(map(str, ops)) or "k"),
                                    mesh=mesh, ndof=ndof, opshape=list(ops), again=True))
        out.append(dict(kind="repeat", id="repeat-%s-ndof2" % tag, mesh=mesh, ndof=2, opshape=[]))
        out.append(dict(kind="repeat", id="repeat-%s-ndof3-op2" % tag, mesh=mesh, ndof=3, opshape=[2]))
        if M.nel <= 2:      # two and three leading operator axes (not square: a permutation of them changes the shape)
            out.append(dict(kind="repeat", id="repeat-%s-ndof2-op2x3" % tag, mesh=mesh, ndof=2, opshape=[2, 3]))
            out.append(dict(kind="repeat", id="repeat-%s-ndof2-op2x2" % tag, mesh=mesh, ndof=2, opshape=[2, 2]))
            out.append(dict(kind="repeat", id="repeat-%s-ndof3-op2x1x2" % tag, mesh=mesh, ndof=3, opshape=[2, 1, 2]))
    return out


def run_item(cfg, tier):
    from symx import npshim
    npshim.EXACT_SCALAR_SQRT = True      # np.sqrt(3) of the Gauss loops -> exact algebraic constant (worker process only)
    try:
        return symbolic_run(SCEN[cfg["kind"]], cfg, tier, max_paths=8)
    finally:
        npshim.EXACT_SCALAR_SQRT = False


def replay(cfg, label, env, case):
    return generic_replay(SCEN, cfg, label, env)
